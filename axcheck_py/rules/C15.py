"""C15 Loading a well-formed static ELF reproduces its segments, entry and symbols (field plumbing).

C15.entry    RIP := e_entry on every successful load
C15.load     PT_LOAD: area at p_vaddr; equal-size variant holds segment_data(segment); otherwise a zero area of the
             page-rounded p_memsz receives segment_data(segment)[..p_filesz] at p_vaddr
C15.perm     mem_prot(p_vaddr, mask) with mask = R/W/X permutation of the segment's p_flags (per flag class)
C15.symbols  symbol_table[st_value] = strtab.get(st_name); undefined symbols are skipped
Declined: byte-for-byte equality of the image for all files; the p_vaddr == 0 skip; the rounding special case.
"""
from .. import absint as A
from .. import elfmodel as EM
from .. import hmodel as H
from .. import hutil as U
from .rules_common import is_err

PT_LOAD = 1


def seg_field(t, name):
    t = U.strip(t)
    return t == ("field", EM.SEG, name)


def run(ctx):
    ck, facts = ctx.check, ctx.facts
    try:
        outs, I, body, ep = EM.run_loader(ctx)
    except KeyError as e:
        ck.violation("C15.entry", "api=from_binary", str(e))
        return
    where = "%s:%d (from_binary)" % (body["span"][0], body["span"][1])
    oks = [o for o in outs if o.kind == "return" and not is_err(o)]
    ck.cov["loader_paths"] = len(outs)
    ck.cov["loader_success_paths"] = len(oks)
    ck.floor("loader success paths", len(oks), 20)
    ebad = None
    for o in oks:
        w = [e for e in o.path.events if e[0] == "reg_write" and U.reg_name(facts, e[2]) == "RIP"]
        if len(w) != 1 or U.strip(w[0][3]) != ("field", ("field", EM.ELF, "ehdr"), "e_entry"):
            ebad = ebad or "RIP := %s" % (A.show(w[0][3]) if w else None)
    if ebad:
        ck.violation("C15.entry", "api=from_binary", ebad, where=where, what="instruction pointer is not the ELF entry point")
    else:
        ck.ok("C15.entry", "api=from_binary")
    # ---- PT_LOAD paths: any path (also widened iterations) where p_type == PT_LOAD was assumed
    lbad = pbad = None
    n_eq = n_zero = n_perm = 0
    for o in outs:
        if o.kind != "return":
            continue
        is_load = any(seg_field(c[0], "p_type") and c[1] == "==" and c[2] == PT_LOAD for c in o.path.conds)
        if not is_load:
            # no area may be created for non-LOAD segments
            continue
        evs = o.path.events
        creates = [e for e in evs if e[0] in ("init_area", "init_zero")]
        writes = [e for e in evs if e[0] == "write_bytes"]
        prots = [e for e in evs if e[0] == "prot"]
        for e in creates:
            if not seg_field(e[1], "p_vaddr"):
                lbad = lbad or "area created at %s, expected p_vaddr" % A.show(e[1])
            if e[0] == "init_area":
                n_eq += 1
                d = e[2]
                if not (d[0] == "to_vec" and strip_d(d[1]) == ("segdata", EM.SEG)):
                    lbad = lbad or "equal-size variant holds %s, expected segment_data(segment)" % A.show(d)[:60]
            else:
                n_zero += 1
                lv = H.leaves(e[2])
                names = {x[2] for x in lv if x[0] == "field" and x[1] == EM.SEG}
                if names != {"p_memsz"}:
                    lbad = lbad or "zero area sized from %s, expected p_memsz" % sorted(names)
        for e in writes:
            if not seg_field(e[1], "p_vaddr"):
                lbad = lbad or "file bytes written at %s, expected p_vaddr" % A.show(e[1])
            d = strip_d(e[2])
            okd = d[0] == "ret" and "::index" in d[1] and strip_d(d[2][0]) == ("segdata", EM.SEG) and \
                d[2][1][0] == "agg" and d[2][1][1].endswith("RangeTo") and seg_field(strip_all(d[2][1][3][0]), "p_filesz")
            if not okd:
                lbad = lbad or "file bytes are %s, expected segment_data(segment)[..p_filesz]" % A.show(d)[:80]
        if [e for e in creates if e[0] == "init_zero"] and not is_err(o) and not writes and prots:
            lbad = lbad or "zero variant never copies the file bytes"
        # permissions (only on paths that got as far as mem_prot)
        for e in prots:
            n_perm += 1
            if not seg_field(e[1], "p_vaddr"):
                pbad = pbad or "mem_prot on %s, expected p_vaddr" % A.show(e[1])
            m = I.decide(o.path, e[2])
            fl = ("field", EM.SEG, "p_flags")
            bits = [o.path.bitfacts.get((fl, i)) for i in range(3)]
            if m is None or any(b is None for b in bits):
                pbad = pbad or "permission mask %s not decided by the p_flags tests" % A.show(e[2])
            else:
                want = (bits[2] << 0) | (bits[1] << 1) | (bits[0] << 2)
                if m != want:
                    pbad = pbad or "p_flags X/W/R=%d%d%d -> mask %d, expected %d" % (bits[0], bits[1], bits[2], m, want)
        if creates and not is_err(o) and not prots:
            pbad = pbad or "a loaded segment never gets its permissions"
    if n_eq == 0 or n_zero == 0:
        lbad = lbad or "PT_LOAD variants missing (equal=%d zero=%d)" % (n_eq, n_zero)
    if n_perm == 0:
        pbad = pbad or "no mem_prot on PT_LOAD paths"
    for rule, bad in (("C15.load", lbad), ("C15.perm", pbad)):
        if bad:
            ck.violation(rule, "segment=PT_LOAD", bad, where=where, what="loaded image differs from the file's segment")
        else:
            ck.ok(rule, "segment=PT_LOAD", n_eq + n_zero if rule == "C15.load" else n_perm)
    # ---- symbols
    sbad = None
    nins = 0
    for o in outs:
        if o.kind != "return":
            continue
        evs = o.path.events
        for i, e in enumerate(evs):
            if e[0] == "coll" and e[1] == "insert" and e[2][-1:] == ("symbol_table",):
                key, val = e[3][0], e[3][1]
                if U.strip(key) == ("field", ("field", EM.ELF, "ehdr"), "e_entry"):
                    continue  # the synthetic _start entry
                nins += 1
                if U.strip(key) != ("field", EM.SYM, "st_value"):
                    sbad = sbad or "symbol keyed by %s, expected st_value" % A.show(key)
                if "strname" not in repr(val) or "st_name" not in repr(val):
                    sbad = sbad or "symbol name is %s, expected strtab.get(st_name)" % A.show(val)[:60]
                # the closest preceding is_undefined on this path must be false
                und = [x for x in evs[:i] if x[0] == "undefined"]
                if und and und[-1][1] == 1:
                    sbad = sbad or "an undefined symbol is imported"
                if not und:
                    sbad = sbad or "symbol imported without testing is_undefined"
    if nins == 0:
        sbad = sbad or "no symbol import found"
    if sbad:
        ck.violation("C15.symbols", "api=from_binary", sbad, where=where)
    else:
        ck.ok("C15.symbols", "api=from_binary", nins)
    ck.sample({"rule": "C15", "paths": len(outs), "pt_load_equal": n_eq, "pt_load_zero": n_zero, "mem_prot": n_perm,
               "symbol_inserts": nins})


def strip_d(t):
    while t[0] in ("deref", "w"):
        t = t[1]
    return t


def strip_all(t):
    while t[0] in ("deref", "w", "cast"):
        t = t[1]
    return t
