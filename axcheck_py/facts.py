"""Fact extraction and loading.

Facts are produced by tools/axfacts (a rustc_private driver) from /repo's
*current working tree*; the cache is keyed by a content hash of the tree so a
stale fact file can never be used for an edited tree.
"""
import fcntl
import glob
import hashlib
import json
import os
import shutil
import subprocess
import sys
import time

VERIF = os.path.dirname(os.path.dirname(os.path.abspath(__file__)))
REPO = os.environ.get("AX_REPO", "/repo")
CACHE = os.environ.get("AX_CACHE", os.path.join(VERIF, ".cache"))
AXFACTS_BIN = os.path.join(VERIF, "tools", "axfacts", "target", "debug", "axfacts")
AXORACLE_BIN = os.path.join(VERIF, "tools", "axoracle", "target", "debug", "axoracle")


class BrokenRun(Exception):
    """The machinery itself could not run (no verdict)."""


def _env_offline(env):
    env = dict(env)
    env["CARGO_NET_OFFLINE"] = "true"
    env.pop("RUSTC_WRAPPER", None)
    return env


def tree_files(repo=None):
    repo = repo or REPO
    out = []
    for name in ("Cargo.toml", "Cargo.lock"):
        p = os.path.join(repo, name)
        if os.path.exists(p):
            out.append(p)
    for root, dirs, files in os.walk(os.path.join(repo, "src")):
        dirs.sort()
        for f in sorted(files):
            out.append(os.path.join(root, f))
    return out


def tree_hash(repo=None):
    repo = repo or REPO
    h = hashlib.sha256()
    for p in tree_files(repo):
        rel = os.path.relpath(p, repo)
        h.update(rel.encode())
        h.update(b"\0")
        with open(p, "rb") as fh:
            h.update(fh.read())
        h.update(b"\0")
    # the driver is part of the key: a rebuilt driver re-extracts
    for p in (os.path.join(VERIF, "tools", "axfacts", "src", "main.rs"),):
        with open(p, "rb") as fh:
            h.update(fh.read())
    return h.hexdigest()[:24]


def nightly_sysroot():
    r = subprocess.run(["rustc", "+nightly", "--print", "sysroot"], capture_output=True, text=True)
    if r.returncode != 0:
        raise BrokenRun("no nightly toolchain: " + r.stderr)
    return r.stdout.strip()


def build_tools():
    """Build the driver and the oracle dumper if missing (setup does this too)."""
    for tool, binp in (("axfacts", AXFACTS_BIN), ("axoracle", AXORACLE_BIN)):
        src = os.path.join(VERIF, "tools", tool, "src", "main.rs")
        if os.path.exists(binp) and os.path.getmtime(binp) >= os.path.getmtime(src):
            continue
        d = os.path.join(VERIF, "tools", tool)
        if tool == "axoracle":
            shutil.copyfile(os.path.join(REPO if os.path.exists(os.path.join(REPO, "Cargo.lock")) else "/repo", "Cargo.lock"),
                            os.path.join(d, "Cargo.lock")) if not os.path.exists(os.path.join(d, "Cargo.lock")) else None
        r = subprocess.run(["cargo", "build", "--offline"], cwd=d, env=_env_offline(os.environ),
                           capture_output=True, text=True)
        if r.returncode != 0 or not os.path.exists(binp):
            raise BrokenRun("cannot build %s:\n%s" % (tool, r.stderr[-4000:]))


def oracle():
    os.makedirs(CACHE, exist_ok=True)
    p = os.path.join(CACHE, "oracle.json")
    src = os.path.join(VERIF, "tools", "axoracle", "src", "main.rs")
    if not os.path.exists(p) or os.path.getmtime(p) < os.path.getmtime(src):
        build_tools()
        r = subprocess.run([AXORACLE_BIN], capture_output=True, text=True)
        if r.returncode != 0:
            raise BrokenRun("axoracle failed: " + r.stderr[-2000:])
        tmp = p + ".%d.tmp" % os.getpid()
        with open(tmp, "w") as fh:
            fh.write(r.stdout)
        os.replace(tmp, p)
    with open(p) as fh:
        return json.load(fh)


def extract(repo=None, fresh=False, profile="dev", target_dir=None):
    """Return the directory holding the fact files of repo's current tree."""
    repo = repo or REPO
    th = tree_hash(repo)
    tag = th if profile == "dev" else th + "-" + profile
    base = os.path.join(CACHE, "facts-fresh" if fresh else "facts")
    out = os.path.join(base, tag)
    marker = os.path.join(out, "DONE")
    if os.path.exists(marker):
        return out, th, False
    os.makedirs(base, exist_ok=True)
    lock = open(os.path.join(CACHE, "extract.lock"), "w")
    fcntl.flock(lock, fcntl.LOCK_EX)
    try:
        if os.path.exists(marker):
            return out, th, False
        build_tools()
        tmp = out + ".tmp%d" % os.getpid()
        shutil.rmtree(tmp, ignore_errors=True)
        os.makedirs(tmp)
        tdir = target_dir or os.path.join(CACHE, "target-fresh" if fresh else "target")
        if fresh:
            shutil.rmtree(tdir, ignore_errors=True)
        os.makedirs(tdir, exist_ok=True)
        # cargo's freshness cache would skip the wrapper: drop the fingerprints
        for fp in glob.glob(os.path.join(tdir, "debug", ".fingerprint", "ax-x86*")):
            shutil.rmtree(fp, ignore_errors=True)
        env = _env_offline(os.environ)
        env["LD_LIBRARY_PATH"] = os.path.join(nightly_sysroot(), "lib") + ":" + env.get("LD_LIBRARY_PATH", "")
        flags = "-Zmir-opt-level=0 -Awarnings"
        if profile == "release-like":
            flags += " -C overflow-checks=off -C debug-assertions=off"
        env["RUSTFLAGS"] = flags
        env["RUSTC_WORKSPACE_WRAPPER"] = AXFACTS_BIN
        env["CARGO_TARGET_DIR"] = tdir
        env["CARGO_INCREMENTAL"] = "0"
        env["AXFACTS_OUT"] = tmp
        env["AXFACTS_CRATES"] = "ax_x86,ax"
        t0 = time.time()
        r = subprocess.run(["cargo", "+nightly", "check", "--offline", "--lib", "--bins"], cwd=repo, env=env,
                           capture_output=True, text=True)
        if r.returncode != 0:
            shutil.rmtree(tmp, ignore_errors=True)
            raise BrokenRun("extraction failed (tree does not build?):\n" + r.stderr[-6000:])
        libs = glob.glob(os.path.join(tmp, "ax_x86-*.json"))
        if len(libs) != 1:
            shutil.rmtree(tmp, ignore_errors=True)
            raise BrokenRun("extraction produced %d lib fact files (driver skipped?)" % len(libs))
        os.replace(libs[0], os.path.join(tmp, "ax_x86.json"))
        bins = glob.glob(os.path.join(tmp, "ax-*.json"))
        if bins:
            os.replace(bins[0], os.path.join(tmp, "ax.json"))
        with open(os.path.join(tmp, "META.json"), "w") as fh:
            json.dump({"tree_hash": th, "repo": repo, "profile": profile, "extract_s": time.time() - t0,
                       "fresh": fresh}, fh)
        shutil.rmtree(out, ignore_errors=True)
        os.replace(tmp, out)
        with open(marker, "w") as fh:
            fh.write(th)
        # keep the cache small: drop fact dirs other than the 6 most recent
        ds = sorted(glob.glob(os.path.join(base, "*")), key=os.path.getmtime)
        for d in ds[:-6]:
            shutil.rmtree(d, ignore_errors=True)
        return out, th, True
    finally:
        fcntl.flock(lock, fcntl.LOCK_UN)
        lock.close()


# ---------------------------------------------------------------------------


class Facts:
    def __init__(self, d, tree, extracted_now=False):
        self.dir = d
        self.tree = tree
        self.extracted_now = extracted_now
        with open(os.path.join(d, "ax_x86.json")) as fh:
            j = json.load(fh)
        self.crate = j["crate"]
        self.bodies = j["bodies"]
        # bodies whose MIR const evaluation had already consumed when the driver came to them: fine for constants
        # (their value stays opaque), not for code
        self.stolen = j.get("stolen", [])
        lost = [x["path"] for x in self.stolen if x.get("kind") in ("Fn", "AssocFn", "Closure")]
        if lost:
            raise BrokenRun("MIR of %d function bodies was not available to the driver: %s" % (len(lost), lost[:3]))
        self.adts = j["adts"]
        self.enums = j["enums"]
        for k, b in self.bodies.items():
            b["path"] = k
        self.bin = None
        bp = os.path.join(d, "ax.json")
        if os.path.exists(bp):
            with open(bp) as fh:
                self.bin = json.load(fh)
        self._by_name = {}
        for k, b in self.bodies.items():
            self._by_name.setdefault(b["name"], []).append(k)
        self._enum_by_discr = {}
        self._enum_by_name = {}

    # ---- lookup helpers
    def nonglue(self):
        return {k: b for k, b in self.bodies.items() if not b["glue"]}

    def by_name(self, name, nonglue=True):
        return [k for k in self._by_name.get(name, []) if not (nonglue and self.bodies[k]["glue"])]

    def one(self, name):
        c = self.by_name(name)
        if len(c) != 1:
            raise KeyError("anchor %r matches %d bodies" % (name, len(c)))
        return self.bodies[c[0]]

    def method(self, impl_self, name):
        c = [k for k in self.by_name(name) if self.bodies[k].get("impl_self") == impl_self]
        if len(c) != 1:
            raise KeyError("anchor %s::%s matches %d bodies" % (impl_self, name, len(c)))
        return self.bodies[c[0]]

    def trait_impl(self, trait_prefix, impl_self, name):
        c = [k for k in self.by_name(name)
             if self.bodies[k].get("impl_self") == impl_self
             and (self.bodies[k].get("impl_trait") or "").startswith(trait_prefix)]
        if len(c) != 1:
            raise KeyError("anchor <%s as %s>::%s matches %d bodies" % (impl_self, trait_prefix, name, len(c)))
        return self.bodies[c[0]]

    def closures_of(self, path):
        pre = path + "::{closure#"
        return [k for k in self.bodies if k.startswith(pre)]

    def enum_variant_by_discr(self, enum, discr):
        m = self._enum_by_discr.get(enum)
        if m is None:
            m = {v[1]: (i, v[0]) for i, v in enumerate(self.enums.get(enum, []))}
            self._enum_by_discr[enum] = m
        return m.get(discr)

    def enum_variant_by_name(self, enum, name):
        m = self._enum_by_name.get(enum)
        if m is None:
            m = {v[0]: (i, v[1]) for i, v in enumerate(self.enums.get(enum, []))}
            self._enum_by_name[enum] = m
        return m.get(name)

    def enum_variant(self, enum, idx):
        vs = self.enums.get(enum)
        if vs is None or idx >= len(vs):
            return None
        return vs[idx]


def load(repo=None, fresh=False, profile="dev"):
    d, th, now = extract(repo, fresh=fresh, profile=profile)
    return Facts(d, th, now)


# --------------------------------------------------------------------------- CFG helpers

def succs(block, unwind=False):
    t = block["term"]
    k = t["k"]
    out = []
    if k == "switch":
        out = list(t["tgts"])
    elif k in ("goto", "drop", "assert", "falseedge", "falseunwind", "yield"):
        out = [t["t"]]
    elif k == "call":
        out = [t["t"]] if t["t"] is not None else []
    if unwind and t.get("unwind") is not None:
        out.append(t["unwind"])
    return out


def span_of(body, sp):
    s = body["spans"][sp]
    return s[0], s[1], s[2], s[3]


def site_str(body, sp):
    f, l, c, _ = span_of(body, sp)
    return "%s:%d" % (f, l)


REJECT_MACROS = ("fatal_error", "assert_fatal", "opcode_unimplemented")


def macro_names(body, sp):
    return [m.split("::")[-1] for m in body["spans"][sp][3]]


def classify_macros(macros):
    """D = by-design rejection, DA = debug assertion, X = crash in every config."""
    ms = [m.split("::")[-1] for m in macros]
    if any(m in REJECT_MACROS for m in ms):
        return "D"
    if any(m.startswith("debug_assert") for m in ms):
        return "DA"
    return "X"


PANIC_FNS = (
    "core::panicking::", "std::rt::begin_panic", "core::option::unwrap_failed", "core::result::unwrap_failed",
    "core::option::expect_failed", "core::slice::index::slice_", "core::str::slice_error_fail",
    "alloc::raw_vec::capacity_overflow", "alloc::alloc::handle_alloc_error", "std::process::abort",
    "std::rt::panic_fmt", "core::panicking::panic",
)


def callee_name(term):
    f = term["f"]
    return f.get("resolved") or f.get("def") or ""


def is_panic_call(term):
    if term["k"] != "call":
        return False
    n = callee_name(term)
    if term["t"] is None and (n.startswith(PANIC_FNS) or "panic" in n or "assert_failed" in n):
        return True
    return False


def reachable_blocks(body, start=0, unwind=False):
    seen = {start}
    st = [start]
    bl = body["blocks"]
    while st:
        b = st.pop()
        for s in succs(bl[b], unwind):
            if s not in seen:
                seen.add(s)
                st.append(s)
    return seen


def preds(body, unwind=False):
    p = {i: [] for i in range(len(body["blocks"]))}
    for i, b in enumerate(body["blocks"]):
        for s in succs(b, unwind):
            p[s].append(i)
    return p


def dominators(body, start=0):
    """Cooper-Harvey-Kennedy immediate dominators on the non-unwind CFG."""
    bl = body["blocks"]
    order = []
    seen = set()

    def dfs(n):
        stack = [(n, iter(succs(bl[n])))]
        seen.add(n)
        while stack:
            node, it = stack[-1]
            adv = False
            for s in it:
                if s not in seen:
                    seen.add(s)
                    stack.append((s, iter(succs(bl[s]))))
                    adv = True
                    break
            if not adv:
                order.append(node)
                stack.pop()

    dfs(start)
    rpo = list(reversed(order))
    idx = {n: i for i, n in enumerate(rpo)}
    pr = preds(body)
    idom = {start: start}
    changed = True
    while changed:
        changed = False
        for n in rpo[1:]:
            ps = [p for p in pr[n] if p in idom]
            if not ps:
                continue
            new = ps[0]
            for p in ps[1:]:
                a, b = p, new
                while a != b:
                    while idx[a] > idx[b]:
                        a = idom[a]
                    while idx[b] > idx[a]:
                        b = idom[b]
                new = a
            if idom.get(n) != new:
                idom[n] = new
                changed = True
    return idom


def dominates(idom, a, b):
    """a dominates b"""
    if b not in idom:
        return False
    while True:
        if a == b:
            return True
        nb = idom[b]
        if nb == b:
            return False
        b = nb
