#!/bin/bash
# Build the framework offline from files on disk: the MIR fact driver (nightly,
# rustc_private, zero deps), the iced-x86 oracle dumper, then warm the caches.
set -e
cd "$(dirname "$0")"
export CARGO_NET_OFFLINE=true
cp /repo/Cargo.lock tools/axoracle/Cargo.lock 2>/dev/null || true
(cd tools/axfacts && cargo build --offline 2>&1 | tail -2)
(cd tools/axoracle && cargo build --offline 2>&1 | tail -2)
mkdir -p .cache evidence
python3 - <<'PY'
import sys
sys.path.insert(0, '.')
from axcheck_py import facts as F
o = F.oracle()
print("oracle: %d codes, iced %s" % (len(o["codes"]), o["iced_version"]))
f = F.load()
print("facts: tree %s, %d bodies" % (f.tree, len(f.bodies)))
PY
